/* The KSI schema as constants (property C10: "mandatory elements present, single-valued elements not repeated, mutually
 * exclusive alternatives not combined, at-least-one groups non-empty, positional constraints respected (header first,
 * MAC last, publications-file sections in order with the signature last)").
 * TRANSCRIBED from the KSI data format (signature 0x0800 and its records, aggregation / extension PDUs version 1
 * 0x0200/0x0300 and version 2 0x0220/0x0221/0x0320/0x0321, publications file) and the property text - not generated from
 * the template tables of libksi.  No format document ships in /repo/doc; where the format leaves a field's multiplicity
 * to the server profile (status fields of the response payloads) only "single-valued" is required here.
 * Each line:  E(template, index, tag, schema flags, multiple (0 single / 1 list), value kind, meaning)
 * schema flags use the flag names of tlv_template.h; only the bits of KSI_SCHEMA_MASK are compared (FORWARD,
 * NONCRITICAL, NO_SERIALIZE, NO_VALUE concern serialization, not acceptance).
 * Value kinds:  INT KSI integer, UTF8 string, OCT octet string, IMP imprint, OBJ(fn) the named typed parser,
 *               COMP(T) nested composite parsed with template T.
 * obligations/C10/tables.c asserts every line against the real constant tables: a changed / dropped / added flag, a
 * changed tag, multiplicity, value parser or sub-template, an added or removed entry fails the assertion named after the
 * line. */
#ifndef SPEC_KSI_SCHEMA_H
#define SPEC_KSI_SCHEMA_H

#define KSI_SCHEMA_MASK (KSI_TLV_TMPL_FLG_MANDATORY | KSI_TLV_TMPL_FLG_LEAST_ONE_G0 | KSI_TLV_TMPL_FLG_LEAST_ONE_G1 | \
	KSI_TLV_TMPL_FLG_MOST_ONE_G0 | KSI_TLV_TMPL_FLG_MOST_ONE_G1 | KSI_TLV_TMPL_FLG_FIXED_ORDER | KSI_TLV_TMPL_FLG_FIRST | \
	KSI_TLV_TMPL_FLG_LAST | KSI_TLV_TMPL_FLG_MORE_DEFS)

/* KSI signature 0x0800: one or more aggregation hash chains; optional calendar chain, aggregation auth record, RFC3161 record; publication record and calendar auth record exclude each other */
#define KSI_SCHEMA_KSI_Signature(E) \
	E(KSI_Signature, 0, 0x801, KSI_TLV_TMPL_FLG_MANDATORY, 1, COMP(KSI_AggregationHashChain), "aggregation hash chain, at least one") \
	E(KSI_Signature, 1, 0x802, 0, 0, COMP(KSI_CalendarHashChain), "calendar hash chain, optional, single") \
	E(KSI_Signature, 2, 0x803, KSI_TLV_TMPL_FLG_MOST_ONE_G0, 0, COMP(KSI_PublicationRecord), "publication record: excludes calendar auth record") \
	E(KSI_Signature, 3, 0x804, 0, 0, COMP(KSI_AggregationAuthRec), "aggregation auth record, optional, single") \
	E(KSI_Signature, 4, 0x805, KSI_TLV_TMPL_FLG_MOST_ONE_G0, 0, COMP(KSI_CalendarAuthRec), "calendar auth record: excludes publication record") \
	E(KSI_Signature, 5, 0x806, 0, 0, COMP(KSI_RFC3161), "RFC3161 record, optional, single") \
	E##_END(KSI_Signature, 6)

/* aggregation hash chain 0x0801 */
#define KSI_SCHEMA_KSI_AggregationHashChain(E) \
	E(KSI_AggregationHashChain, 0, 0x02, KSI_TLV_TMPL_FLG_MANDATORY, 0, INT, "aggregation time, mandatory single") \
	E(KSI_AggregationHashChain, 1, 0x03, KSI_TLV_TMPL_FLG_MANDATORY, 1, INT, "chain index, at least one") \
	E(KSI_AggregationHashChain, 2, 0x04, 0, 0, OCT, "input data, optional single") \
	E(KSI_AggregationHashChain, 3, 0x05, KSI_TLV_TMPL_FLG_MANDATORY, 0, IMP, "input hash, mandatory single") \
	E(KSI_AggregationHashChain, 4, 0x06, KSI_TLV_TMPL_FLG_MANDATORY, 0, INT, "aggregation algorithm, mandatory single") \
	E(KSI_AggregationHashChain, 5, 0x07, KSI_TLV_TMPL_FLG_LEAST_ONE_G0, 1, OBJ(KSI_HashChainLink_fromTlv), "left link: at least one link (left or right)") \
	E(KSI_AggregationHashChain, 6, 0x08, KSI_TLV_TMPL_FLG_LEAST_ONE_G0, 1, OBJ(KSI_HashChainLink_fromTlv), "right link: at least one link (left or right)") \
	E##_END(KSI_AggregationHashChain, 7)

/* aggregation chain link: optional level correction and exactly one of sibling hash / legacy id / metadata */
#define KSI_SCHEMA_KSI_HashChainLink(E) \
	E(KSI_HashChainLink, 0, 0x01, 0, 0, INT, "level correction, optional single") \
	E(KSI_HashChainLink, 1, 0x02, KSI_TLV_TMPL_FLG_LEAST_ONE_G0 | KSI_TLV_TMPL_FLG_MOST_ONE_G0, 0, IMP, "sibling hash: exactly one of 02/03/04") \
	E(KSI_HashChainLink, 2, 0x03, KSI_TLV_TMPL_FLG_LEAST_ONE_G0 | KSI_TLV_TMPL_FLG_MOST_ONE_G0, 0, OBJ(KSI_HashChainLink_LegacyId_fromTlv), "legacy id: exactly one of 02/03/04") \
	E(KSI_HashChainLink, 3, 0x04, KSI_TLV_TMPL_FLG_LEAST_ONE_G0 | KSI_TLV_TMPL_FLG_MOST_ONE_G0, 0, OBJ(KSI_MetaDataElement_fromTlv), "metadata: exactly one of 02/03/04") \
	E##_END(KSI_HashChainLink, 4)

/* metadata record: padding (if present) first, client id mandatory */
#define KSI_SCHEMA_KSI_MetaDataElement(E) \
	E(KSI_MetaDataElement, 0, 0x1e, KSI_TLV_TMPL_FLG_FIRST, 0, OCT, "padding: first") \
	E(KSI_MetaDataElement, 1, 0x01, KSI_TLV_TMPL_FLG_MANDATORY, 0, UTF8, "client id, mandatory single") \
	E(KSI_MetaDataElement, 2, 0x02, 0, 0, UTF8, "machine id, optional single") \
	E(KSI_MetaDataElement, 3, 0x03, 0, 0, INT, "sequence number, optional single") \
	E(KSI_MetaDataElement, 4, 0x04, 0, 0, INT, "request time, optional single") \
	E##_END(KSI_MetaDataElement, 5)

/* calendar hash chain 0x0802 */
#define KSI_SCHEMA_KSI_CalendarHashChain(E) \
	E(KSI_CalendarHashChain, 0, 0x01, KSI_TLV_TMPL_FLG_MANDATORY, 0, INT, "publication time, mandatory single") \
	E(KSI_CalendarHashChain, 1, 0x02, 0, 0, INT, "aggregation time, optional single") \
	E(KSI_CalendarHashChain, 2, 0x05, KSI_TLV_TMPL_FLG_MANDATORY, 0, IMP, "input hash, mandatory single") \
	E(KSI_CalendarHashChain, 3, 0x07, KSI_TLV_TMPL_FLG_LEAST_ONE_G0, 1, OBJ(KSI_CalendarHashChainLink_fromTlv), "left link: at least one link") \
	E(KSI_CalendarHashChain, 4, 0x08, KSI_TLV_TMPL_FLG_LEAST_ONE_G0, 1, OBJ(KSI_CalendarHashChainLink_fromTlv), "right link: at least one link") \
	E##_END(KSI_CalendarHashChain, 5)

/* published data 0x10 */
#define KSI_SCHEMA_KSI_PublicationData(E) \
	E(KSI_PublicationData, 0, 0x02, KSI_TLV_TMPL_FLG_MANDATORY, 0, INT, "publication time, mandatory single") \
	E(KSI_PublicationData, 1, 0x04, KSI_TLV_TMPL_FLG_MANDATORY, 0, IMP, "published hash, mandatory single") \
	E##_END(KSI_PublicationData, 2)

/* publication record 0x0803 / 0x0703 */
#define KSI_SCHEMA_KSI_PublicationRecord(E) \
	E(KSI_PublicationRecord, 0, 0x10, KSI_TLV_TMPL_FLG_MANDATORY, 0, COMP(KSI_PublicationData), "published data, mandatory single") \
	E(KSI_PublicationRecord, 1, 0x09, 0, 1, OBJ(KSI_Utf8StringNZ_fromTlv), "publication reference, any number") \
	E(KSI_PublicationRecord, 2, 0x0a, 0, 1, OBJ(KSI_Utf8StringNZ_fromTlv), "repository URI, any number") \
	E##_END(KSI_PublicationRecord, 3)

/* signature data 0x0b of a calendar auth record */
#define KSI_SCHEMA_KSI_CalAuthRecPKISignedData(E) \
	E(KSI_CalAuthRecPKISignedData, 0, 0x01, KSI_TLV_TMPL_FLG_MANDATORY, 0, UTF8, "signature type, mandatory single") \
	E(KSI_CalAuthRecPKISignedData, 1, 0x02, KSI_TLV_TMPL_FLG_MANDATORY, 0, OCT, "signature value, mandatory single") \
	E(KSI_CalAuthRecPKISignedData, 2, 0x03, KSI_TLV_TMPL_FLG_MANDATORY, 0, OCT, "certificate id, mandatory single") \
	E(KSI_CalAuthRecPKISignedData, 3, 0x04, 0, 0, OBJ(KSI_Utf8StringNZ_fromTlv), "certificate repository URI, optional single") \
	E##_END(KSI_CalAuthRecPKISignedData, 4)

/* signature data 0x0b of an aggregation auth record */
#define KSI_SCHEMA_KSI_AggrAuthRecPKISignedData(E) \
	E(KSI_AggrAuthRecPKISignedData, 0, 0x01, KSI_TLV_TMPL_FLG_MANDATORY, 0, UTF8, "signature type, mandatory single") \
	E(KSI_AggrAuthRecPKISignedData, 1, 0x02, KSI_TLV_TMPL_FLG_MANDATORY, 0, OCT, "signature value, mandatory single") \
	E(KSI_AggrAuthRecPKISignedData, 2, 0x03, KSI_TLV_TMPL_FLG_MANDATORY, 0, OCT, "certificate id, mandatory single") \
	E(KSI_AggrAuthRecPKISignedData, 3, 0x04, 0, 0, OBJ(KSI_Utf8StringNZ_fromTlv), "certificate repository URI, optional single") \
	E##_END(KSI_AggrAuthRecPKISignedData, 4)

/* calendar auth record 0x0805 */
#define KSI_SCHEMA_KSI_CalendarAuthRec(E) \
	E(KSI_CalendarAuthRec, 0, 0x10, KSI_TLV_TMPL_FLG_MANDATORY, 0, OBJ(KSI_PublicationData_fromTlv), "published data, mandatory single") \
	E(KSI_CalendarAuthRec, 1, 0x0b, KSI_TLV_TMPL_FLG_MANDATORY, 0, COMP(KSI_CalAuthRecPKISignedData), "signature data, mandatory single") \
	E##_END(KSI_CalendarAuthRec, 2)

/* aggregation auth record 0x0804 */
#define KSI_SCHEMA_KSI_AggregationAuthRec(E) \
	E(KSI_AggregationAuthRec, 0, 0x02, KSI_TLV_TMPL_FLG_MANDATORY, 0, INT, "aggregation time, mandatory single") \
	E(KSI_AggregationAuthRec, 1, 0x03, KSI_TLV_TMPL_FLG_MANDATORY, 1, INT, "chain index, at least one") \
	E(KSI_AggregationAuthRec, 2, 0x05, KSI_TLV_TMPL_FLG_MANDATORY, 0, IMP, "input hash, mandatory single") \
	E(KSI_AggregationAuthRec, 3, 0x0b, KSI_TLV_TMPL_FLG_MANDATORY, 0, COMP(KSI_AggrAuthRecPKISignedData), "signature data, mandatory single") \
	E##_END(KSI_AggregationAuthRec, 4)

/* RFC 3161 record 0x0806: every field mandatory */
#define KSI_SCHEMA_KSI_RFC3161(E) \
	E(KSI_RFC3161, 0, 0x02, KSI_TLV_TMPL_FLG_MANDATORY, 0, INT, "aggregation time") \
	E(KSI_RFC3161, 1, 0x03, KSI_TLV_TMPL_FLG_MANDATORY, 1, INT, "chain index, at least one") \
	E(KSI_RFC3161, 2, 0x05, KSI_TLV_TMPL_FLG_MANDATORY, 0, IMP, "input hash") \
	E(KSI_RFC3161, 3, 0x10, KSI_TLV_TMPL_FLG_MANDATORY, 0, OCT, "TSTInfo prefix") \
	E(KSI_RFC3161, 4, 0x11, KSI_TLV_TMPL_FLG_MANDATORY, 0, OCT, "TSTInfo suffix") \
	E(KSI_RFC3161, 5, 0x12, KSI_TLV_TMPL_FLG_MANDATORY, 0, INT, "TSTInfo hash algorithm") \
	E(KSI_RFC3161, 6, 0x13, KSI_TLV_TMPL_FLG_MANDATORY, 0, OCT, "signed attributes prefix") \
	E(KSI_RFC3161, 7, 0x14, KSI_TLV_TMPL_FLG_MANDATORY, 0, OCT, "signed attributes suffix") \
	E(KSI_RFC3161, 8, 0x15, KSI_TLV_TMPL_FLG_MANDATORY, 0, INT, "signed attributes hash algorithm") \
	E##_END(KSI_RFC3161, 9)

/* PDU header 0x01 */
#define KSI_SCHEMA_KSI_Header(E) \
	E(KSI_Header, 0, 0x01, KSI_TLV_TMPL_FLG_MANDATORY, 0, UTF8, "login id, mandatory single") \
	E(KSI_Header, 1, 0x02, 0, 0, INT, "instance id, optional single") \
	E(KSI_Header, 2, 0x03, 0, 0, INT, "message id, optional single") \
	E##_END(KSI_Header, 3)

/* error payload */
#define KSI_SCHEMA_KSI_ErrorPdu(E) \
	E(KSI_ErrorPdu, 0, 0x04, KSI_TLV_TMPL_FLG_MANDATORY, 0, INT, "status, mandatory single") \
	E(KSI_ErrorPdu, 1, 0x05, 0, 0, UTF8, "error message, optional single") \
	E##_END(KSI_ErrorPdu, 2)

/* aggregation request PDU v2 0x0220: header first, at least one payload, MAC last */
#define KSI_SCHEMA_KSI_AggregationReqPdu(E) \
	E(KSI_AggregationReqPdu, 0, 0x01, KSI_TLV_TMPL_FLG_FIRST, 0, OBJ(KSI_Header_fromTlv), "header: first") \
	E(KSI_AggregationReqPdu, 1, 0x02, KSI_TLV_TMPL_FLG_LEAST_ONE_G0, 0, OBJ(KSI_AggregationReq_fromTlv), "aggregation request payload (at least one payload)") \
	E(KSI_AggregationReqPdu, 2, 0x04, KSI_TLV_TMPL_FLG_LEAST_ONE_G0, 0, COMP(KSI_AggregationConf), "configuration request payload (at least one payload)") \
	E(KSI_AggregationReqPdu, 3, 0x05, KSI_TLV_TMPL_FLG_LEAST_ONE_G0, 0, COMP(KSI_AggregationAckReq), "acknowledgment request payload (at least one payload)") \
	E(KSI_AggregationReqPdu, 4, 0x1f, KSI_TLV_TMPL_FLG_LAST, 0, IMP, "MAC: last") \
	E##_END(KSI_AggregationReqPdu, 5)

/* aggregation response PDU v2 0x0221: header first, at least one payload, MAC last */
#define KSI_SCHEMA_KSI_AggregationRespPdu(E) \
	E(KSI_AggregationRespPdu, 0, 0x01, KSI_TLV_TMPL_FLG_FIRST, 0, OBJ(KSI_Header_fromTlv), "header: first") \
	E(KSI_AggregationRespPdu, 1, 0x02, KSI_TLV_TMPL_FLG_LEAST_ONE_G0, 0, OBJ(KSI_AggregationResp_fromTlv), "aggregation response payload (at least one payload)") \
	E(KSI_AggregationRespPdu, 2, 0x03, KSI_TLV_TMPL_FLG_LEAST_ONE_G0, 0, COMP(KSI_ErrorPdu), "error payload (at least one payload)") \
	E(KSI_AggregationRespPdu, 3, 0x04, KSI_TLV_TMPL_FLG_LEAST_ONE_G0, 0, COMP(KSI_AggregationConf), "configuration payload (at least one payload)") \
	E(KSI_AggregationRespPdu, 4, 0x05, KSI_TLV_TMPL_FLG_LEAST_ONE_G0, 0, COMP(KSI_AggregationAck), "acknowledgment payload (at least one payload)") \
	E(KSI_AggregationRespPdu, 5, 0x1f, KSI_TLV_TMPL_FLG_LAST, 0, IMP, "MAC: last") \
	E##_END(KSI_AggregationRespPdu, 6)

/* extension request PDU v2 0x0320: header first, at least one payload, MAC last */
#define KSI_SCHEMA_KSI_ExtendReqPdu(E) \
	E(KSI_ExtendReqPdu, 0, 0x01, KSI_TLV_TMPL_FLG_FIRST, 0, OBJ(KSI_Header_fromTlv), "header: first") \
	E(KSI_ExtendReqPdu, 1, 0x02, KSI_TLV_TMPL_FLG_LEAST_ONE_G0, 0, OBJ(KSI_ExtendReq_fromTlv), "extension request payload (at least one payload)") \
	E(KSI_ExtendReqPdu, 2, 0x04, KSI_TLV_TMPL_FLG_LEAST_ONE_G0, 0, COMP(KSI_ExtendConf), "configuration request payload (at least one payload)") \
	E(KSI_ExtendReqPdu, 3, 0x1f, KSI_TLV_TMPL_FLG_LAST, 0, IMP, "MAC: last") \
	E##_END(KSI_ExtendReqPdu, 4)

/* extension response PDU v2 0x0321: header first, at least one payload, MAC last */
#define KSI_SCHEMA_KSI_ExtendRespPdu(E) \
	E(KSI_ExtendRespPdu, 0, 0x01, KSI_TLV_TMPL_FLG_FIRST, 0, OBJ(KSI_Header_fromTlv), "header: first") \
	E(KSI_ExtendRespPdu, 1, 0x02, KSI_TLV_TMPL_FLG_LEAST_ONE_G0, 0, OBJ(KSI_ExtendResp_fromTlv), "extension response payload (at least one payload)") \
	E(KSI_ExtendRespPdu, 2, 0x03, KSI_TLV_TMPL_FLG_LEAST_ONE_G0, 0, COMP(KSI_ErrorPdu), "error payload (at least one payload)") \
	E(KSI_ExtendRespPdu, 3, 0x04, KSI_TLV_TMPL_FLG_LEAST_ONE_G0, 0, COMP(KSI_ExtendConf), "configuration payload (at least one payload)") \
	E(KSI_ExtendRespPdu, 4, 0x1f, KSI_TLV_TMPL_FLG_LAST, 0, IMP, "MAC: last") \
	E##_END(KSI_ExtendRespPdu, 5)

/* aggregation PDU v1 0x0200: exactly one of request / response / error */
#define KSI_SCHEMA_KSI_AggregationPdu(E) \
	E(KSI_AggregationPdu, 0, 0x01, 0, 0, OBJ(KSI_Header_fromTlv), "header, single") \
	E(KSI_AggregationPdu, 1, 0x201, KSI_TLV_TMPL_FLG_LEAST_ONE_G0 | KSI_TLV_TMPL_FLG_MOST_ONE_G0, 0, OBJ(KSI_AggregationReq_fromTlv), "request: exactly one of 201/202/203") \
	E(KSI_AggregationPdu, 2, 0x202, KSI_TLV_TMPL_FLG_LEAST_ONE_G0 | KSI_TLV_TMPL_FLG_MOST_ONE_G0, 0, OBJ(KSI_AggregationResp_fromTlv), "response: exactly one of 201/202/203") \
	E(KSI_AggregationPdu, 3, 0x203, KSI_TLV_TMPL_FLG_LEAST_ONE_G0 | KSI_TLV_TMPL_FLG_MOST_ONE_G0, 0, COMP(KSI_ErrorPdu), "error: exactly one of 201/202/203") \
	E(KSI_AggregationPdu, 4, 0x1f, 0, 0, IMP, "MAC, single") \
	E##_END(KSI_AggregationPdu, 5)

/* extension PDU v1 0x0300: exactly one of request / response / error */
#define KSI_SCHEMA_KSI_ExtendPdu(E) \
	E(KSI_ExtendPdu, 0, 0x01, 0, 0, OBJ(KSI_Header_fromTlv), "header, single") \
	E(KSI_ExtendPdu, 1, 0x301, KSI_TLV_TMPL_FLG_LEAST_ONE_G0 | KSI_TLV_TMPL_FLG_MOST_ONE_G0, 0, OBJ(KSI_ExtendReq_fromTlv), "request: exactly one of 301/302/303") \
	E(KSI_ExtendPdu, 2, 0x302, KSI_TLV_TMPL_FLG_LEAST_ONE_G0 | KSI_TLV_TMPL_FLG_MOST_ONE_G0, 0, OBJ(KSI_ExtendResp_fromTlv), "response: exactly one of 301/302/303") \
	E(KSI_ExtendPdu, 3, 0x303, KSI_TLV_TMPL_FLG_LEAST_ONE_G0 | KSI_TLV_TMPL_FLG_MOST_ONE_G0, 0, COMP(KSI_ErrorPdu), "error: exactly one of 301/302/303") \
	E(KSI_ExtendPdu, 4, 0x1f, 0, 0, IMP, "MAC, single") \
	E##_END(KSI_ExtendPdu, 5)

/* aggregation request payload v2 */
#define KSI_SCHEMA_KSI_AggregationReq_v2(E) \
	E(KSI_AggregationReq_v2, 0, 0x01, KSI_TLV_TMPL_FLG_MANDATORY, 0, INT, "request id, mandatory single") \
	E(KSI_AggregationReq_v2, 1, 0x02, KSI_TLV_TMPL_FLG_MANDATORY, 0, IMP, "request hash, mandatory single") \
	E(KSI_AggregationReq_v2, 2, 0x03, 0, 0, INT, "request level, optional single") \
	E##_END(KSI_AggregationReq_v2, 3)

/* aggregation request payload v1 */
#define KSI_SCHEMA_KSI_AggregationReq(E) \
	E(KSI_AggregationReq, 0, 0x01, KSI_TLV_TMPL_FLG_MANDATORY, 0, INT, "request id, mandatory single") \
	E(KSI_AggregationReq, 1, 0x02, 0, 0, IMP, "request hash, optional single") \
	E(KSI_AggregationReq, 2, 0x03, 0, 0, INT, "request level, optional single") \
	E(KSI_AggregationReq, 3, 0x10, 0, 0, COMP(KSI_Config), "configuration request, optional single") \
	E##_END(KSI_AggregationReq, 4)

/* aggregation response payload v2 */
#define KSI_SCHEMA_KSI_AggregationResp_v2(E) \
	E(KSI_AggregationResp_v2, 0, 0x01, KSI_TLV_TMPL_FLG_MANDATORY, 0, INT, "request id, mandatory single") \
	E(KSI_AggregationResp_v2, 1, 0x04, 0, 0, INT, "status, single") \
	E(KSI_AggregationResp_v2, 2, 0x05, 0, 0, UTF8, "error message, optional single") \
	E(KSI_AggregationResp_v2, 3, 0x801, 0, 1, COMP(KSI_AggregationHashChain), "aggregation hash chains") \
	E(KSI_AggregationResp_v2, 4, 0x802, 0, 0, COMP(KSI_CalendarHashChain), "calendar hash chain, single") \
	E(KSI_AggregationResp_v2, 5, 0x804, 0, 0, COMP(KSI_AggregationAuthRec), "aggregation auth record, single") \
	E(KSI_AggregationResp_v2, 6, 0x805, 0, 0, COMP(KSI_CalendarAuthRec), "calendar auth record, single") \
	E##_END(KSI_AggregationResp_v2, 7)

/* extension request payload */
#define KSI_SCHEMA_KSI_ExtendReq(E) \
	E(KSI_ExtendReq, 0, 0x01, KSI_TLV_TMPL_FLG_MANDATORY, 0, INT, "request id, mandatory single") \
	E(KSI_ExtendReq, 1, 0x02, 0, 0, INT, "aggregation time, single") \
	E(KSI_ExtendReq, 2, 0x03, 0, 0, INT, "publication time, optional single") \
	E##_END(KSI_ExtendReq, 3)

/* extension response payload v2 */
#define KSI_SCHEMA_KSI_ExtendResp_v2(E) \
	E(KSI_ExtendResp_v2, 0, 0x01, KSI_TLV_TMPL_FLG_MANDATORY, 0, INT, "request id, mandatory single") \
	E(KSI_ExtendResp_v2, 1, 0x04, 0, 0, INT, "status, single") \
	E(KSI_ExtendResp_v2, 2, 0x05, 0, 0, UTF8, "error message, optional single") \
	E(KSI_ExtendResp_v2, 3, 0x12, 0, 0, INT, "calendar last time, optional single") \
	E(KSI_ExtendResp_v2, 4, 0x802, 0, 0, COMP(KSI_CalendarHashChain), "calendar hash chain, single") \
	E##_END(KSI_ExtendResp_v2, 5)

/* publications file: header, certificate records, publication records, signature - in this order, signature last */
#define KSI_SCHEMA_KSI_PublicationsFile(E) \
	E(KSI_PublicationsFile, 0, 0x701, KSI_TLV_TMPL_FLG_MANDATORY | KSI_TLV_TMPL_FLG_FIXED_ORDER, 0, COMP(KSI_PublicationsHeader), "header: mandatory single, position 0") \
	E(KSI_PublicationsFile, 1, 0x702, KSI_TLV_TMPL_FLG_FIXED_ORDER, 1, COMP(KSI_CertificateRecord), "certificate records: after the header") \
	E(KSI_PublicationsFile, 2, 0x703, KSI_TLV_TMPL_FLG_FIXED_ORDER, 1, COMP(KSI_PublicationRecord), "publication records: after the certificates") \
	E(KSI_PublicationsFile, 3, 0x704, KSI_TLV_TMPL_FLG_MANDATORY | KSI_TLV_TMPL_FLG_FIXED_ORDER, 0, OBJ(KSI_PKISignature_fromTlv), "signature: mandatory single, last in the order") \
	E##_END(KSI_PublicationsFile, 4)

/* publications file header 0x0701 */
#define KSI_SCHEMA_KSI_PublicationsHeader(E) \
	E(KSI_PublicationsHeader, 0, 0x01, KSI_TLV_TMPL_FLG_MANDATORY, 0, INT, "version, mandatory single") \
	E(KSI_PublicationsHeader, 1, 0x02, KSI_TLV_TMPL_FLG_MANDATORY, 0, INT, "creation time, mandatory single") \
	E(KSI_PublicationsHeader, 2, 0x03, 0, 0, OBJ(KSI_Utf8StringNZ_fromTlv), "repository URI, optional single") \
	E##_END(KSI_PublicationsHeader, 3)

/* certificate record 0x0702 */
#define KSI_SCHEMA_KSI_CertificateRecord(E) \
	E(KSI_CertificateRecord, 0, 0x01, KSI_TLV_TMPL_FLG_MANDATORY, 0, OCT, "certificate id, mandatory single") \
	E(KSI_CertificateRecord, 1, 0x02, KSI_TLV_TMPL_FLG_MANDATORY, 0, OBJ(KSI_PKICertificate_fromTlv), "certificate, mandatory single") \
	E##_END(KSI_CertificateRecord, 2)

/* every template of signature_builder.c */
#define KSI_SCHEMA_ALL_SIGNATURE_BUILDER(E) \
	KSI_SCHEMA_KSI_Signature(E)

/* every template of tlv_template.c */
#define KSI_SCHEMA_ALL_TLV_TEMPLATE(E) \
	KSI_SCHEMA_KSI_AggregationHashChain(E) \
	KSI_SCHEMA_KSI_HashChainLink(E) \
	KSI_SCHEMA_KSI_MetaDataElement(E) \
	KSI_SCHEMA_KSI_CalendarHashChain(E) \
	KSI_SCHEMA_KSI_PublicationData(E) \
	KSI_SCHEMA_KSI_PublicationRecord(E) \
	KSI_SCHEMA_KSI_CalAuthRecPKISignedData(E) \
	KSI_SCHEMA_KSI_AggrAuthRecPKISignedData(E) \
	KSI_SCHEMA_KSI_CalendarAuthRec(E) \
	KSI_SCHEMA_KSI_AggregationAuthRec(E) \
	KSI_SCHEMA_KSI_RFC3161(E) \
	KSI_SCHEMA_KSI_Header(E) \
	KSI_SCHEMA_KSI_ErrorPdu(E) \
	KSI_SCHEMA_KSI_AggregationReqPdu(E) \
	KSI_SCHEMA_KSI_AggregationRespPdu(E) \
	KSI_SCHEMA_KSI_ExtendReqPdu(E) \
	KSI_SCHEMA_KSI_ExtendRespPdu(E) \
	KSI_SCHEMA_KSI_AggregationPdu(E) \
	KSI_SCHEMA_KSI_ExtendPdu(E) \
	KSI_SCHEMA_KSI_AggregationReq_v2(E) \
	KSI_SCHEMA_KSI_AggregationReq(E) \
	KSI_SCHEMA_KSI_AggregationResp_v2(E) \
	KSI_SCHEMA_KSI_ExtendReq(E) \
	KSI_SCHEMA_KSI_ExtendResp_v2(E) \
	KSI_SCHEMA_KSI_PublicationsHeader(E) \
	KSI_SCHEMA_KSI_CertificateRecord(E)

/* every template of publicationsfile.c */
#define KSI_SCHEMA_ALL_PUBLICATIONSFILE(E) \
	KSI_SCHEMA_KSI_PublicationsFile(E)

#endif
