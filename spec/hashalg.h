/* Reference table of the KSI hash algorithms, written from the documentation in hash.h (enum KSI_HashAlgorithm,
 * KSI_getHashAlgorithmByName, KSI_getHashLength, KSI_isHashAlgorithmTrusted, KSI_checkHashAlgorithmAt) and the
 * published digest sizes of the algorithms - not from the tables in hash.c.
 *   id   algorithm    digest bytes   status
 *   0x00 SHA-1            20         deprecated since 2016-07-01T00:00:00Z (1467331200)
 *   0x01 SHA-256          32
 *   0x02 RIPEMD-160       20
 *   0x03 (retired id, never valid)
 *   0x04 SHA-384          48
 *   0x05 SHA-512          64
 *   0x06 (retired id, never valid)
 *   0x07 SHA3-224         28
 *   0x08 SHA3-256         32
 *   0x09 SHA3-384         48
 *   0x0a SHA3-512         64
 *   0x0b SM3              32
 * All functions of the first part are loop-free (usable from contracts under dfcc). */
#ifndef SPEC_HASHALG_H
#define SPEC_HASHALG_H
#include <stddef.h>

#define SPEC_HASHALG_COUNT 12
#define SPEC_SHA1_DEPRECATED_FROM 1467331200LL
#define SPEC_HASHALG_MAX_LEN 64

static int spec_hashalg_known(long long id) { return id >= 0 && id < SPEC_HASHALG_COUNT && id != 3 && id != 6; }

static unsigned spec_hashalg_len(long long id) {
	switch (id) {
	case 0x00: return 20; case 0x01: return 32; case 0x02: return 20; case 0x04: return 48; case 0x05: return 64;
	case 0x07: return 28; case 0x08: return 32; case 0x09: return 48; case 0x0a: return 64; case 0x0b: return 32;
	default: return 0;
	}
}
/* 0 = never */
static long long spec_hashalg_deprecated_from(long long id) { return id == 0x00 ? SPEC_SHA1_DEPRECATED_FROM : 0; }
static long long spec_hashalg_obsolete_from(long long id) { (void)id; return 0; }

/* trusted: known and neither a deprecation nor an obsoletion date is set (whether or not the date has passed) */
static int spec_hashalg_trusted(long long id) {
	return spec_hashalg_known(id) && spec_hashalg_deprecated_from(id) == 0 && spec_hashalg_obsolete_from(id) == 0;
}
/* status at time t: 0 = fine, 1 = deprecated, 2 = obsolete, 3 = unknown id */
static int spec_hashalg_status_at(long long id, long long t) {
	if (!spec_hashalg_known(id)) return 3;
	if (spec_hashalg_obsolete_from(id) != 0 && spec_hashalg_obsolete_from(id) <= t) return 2;
	if (spec_hashalg_deprecated_from(id) != 0 && spec_hashalg_deprecated_from(id) <= t) return 1;
	return 0;
}
/* algorithms the OpenSSL back end (hash_openssl.c, default OpenSSL build) can compute */
static int spec_hashalg_supported_openssl(long long id) { return id == 0x00 || id == 0x01 || id == 0x02 || id == 0x04 || id == 0x05; }

/* ---- names (hash.h, KSI_getHashAlgorithmByName): case-insensitive, '_' is accepted for '-'; loops: plain mode / native only ---- */
static const struct { const char *name; int id; } spec_hashalg_names[] = {
	{"DEFAULT", 0x01},
	{"SHA-1", 0x00}, {"SHA1", 0x00},
	{"SHA-256", 0x01}, {"SHA2-256", 0x01}, {"SHA-2", 0x01}, {"SHA2", 0x01}, {"SHA256", 0x01},
	{"RIPEMD-160", 0x02}, {"RIPEMD160", 0x02},
	{"SHA-384", 0x04}, {"SHA384", 0x04}, {"SHA2-384", 0x04},
	{"SHA-512", 0x05}, {"SHA512", 0x05}, {"SHA2-512", 0x05},
	{"SHA3-224", 0x07}, {"SHA3-256", 0x08}, {"SHA3-384", 0x09}, {"SHA3-512", 0x0a},
	{"SM-3", 0x0b}, {"SM3", 0x0b},
};
#define SPEC_HASHALG_NAMES (sizeof(spec_hashalg_names) / sizeof(spec_hashalg_names[0]))
#define SPEC_HASHALG_NAME_MAX 10     /* longest name: RIPEMD-160 */

static int spec_hashalg_fold(int c) { if (c >= 'a' && c <= 'z') return c - 32; if (c == '_') return '-'; return c; }
/* -1 when the name is NULL, empty or not in the list */
static int spec_hashalg_by_name(const char *name) {
	size_t k, i;
	if (name == NULL || name[0] == 0) return -1;
	for (k = 0; k < SPEC_HASHALG_NAMES; k++) {
		const char *n = spec_hashalg_names[k].name;
		for (i = 0; i <= SPEC_HASHALG_NAME_MAX + 1; i++) {
			if (spec_hashalg_fold(name[i]) != n[i]) break;
			if (n[i] == 0) return spec_hashalg_names[k].id;
		}
	}
	return -1;
}
#endif
