/* Reference definition of the KSI TLV header, written from the TLV format description and the text of
 * property C09 - NOT from fast_tlv.c / tlv.c / tlv_element.c.
 *
 *   first octet:  bit 0x80  = TLV16 (4-octet header), else TLV8 (2-octet header)
 *                 bit 0x40  = non-critical ("lenient")
 *                 bit 0x20  = forward
 *                 bits 0x1f = tag (TLV8) / the 5 most significant bits of the 13-bit tag (TLV16)
 *   TLV8 :  [first] [length, 1 octet]
 *   TLV16:  [first] [tag, low 8 bits] [length, 2 octets big-endian]
 *   an encoder uses TLV8 exactly when tag <= 0x1f and length <= 0xff; nothing longer than 0xffff is encodable.
 *
 * All functions are loop-free (they are called from contracts under dfcc) and usable natively (replay drivers). */
#ifndef SPEC_TLV_H
#define SPEC_TLV_H
#include <stddef.h>

#define SPEC_TLV_MAX_TAG 0x1fffu
#define SPEC_TLV_MAX_LEN 0xffffu

/* ---- decoding ---------------------------------------------------------------------------- */
/* number of header octets announced by the first octet */
static size_t spec_tlv_hdr_need(unsigned char first) { return (first & 0x80) ? 4 : 2; }

/* the buffer [m, m+l) holds a complete header (reads m[0] only when l >= 1) */
static int spec_tlv_hdr_complete(const unsigned char *m, size_t l) {
	if (l < 1) return 0;
	return l >= spec_tlv_hdr_need(m[0]);
}
/* field decoders; defined (non-garbage) only when spec_tlv_hdr_complete(m, l); never read outside [m, m+l) */
static size_t spec_tlv_dec_hdr_len(const unsigned char *m, size_t l) {
	if (!spec_tlv_hdr_complete(m, l)) return 0;
	return spec_tlv_hdr_need(m[0]);
}
static unsigned spec_tlv_dec_tag(const unsigned char *m, size_t l) {
	if (!spec_tlv_hdr_complete(m, l)) return 0;
	if (m[0] & 0x80) return ((unsigned)(m[0] & 0x1f) << 8) | m[1];
	return m[0] & 0x1f;
}
static int spec_tlv_dec_nc(const unsigned char *m, size_t l) {
	if (!spec_tlv_hdr_complete(m, l)) return 0;
	return (m[0] & 0x40) ? 1 : 0;
}
static int spec_tlv_dec_fwd(const unsigned char *m, size_t l) {
	if (!spec_tlv_hdr_complete(m, l)) return 0;
	return (m[0] & 0x20) ? 1 : 0;
}
static size_t spec_tlv_dec_dat_len(const unsigned char *m, size_t l) {
	if (!spec_tlv_hdr_complete(m, l)) return 0;
	if (m[0] & 0x80) return ((size_t)m[2] << 8) | m[3];
	return m[1];
}
/* [m, m+l) starts with one complete element (header complete and the declared payload present) */
static int spec_tlv_elem_complete(const unsigned char *m, size_t l) {
	if (!spec_tlv_hdr_complete(m, l)) return 0;
	return l - spec_tlv_dec_hdr_len(m, l) >= spec_tlv_dec_dat_len(m, l);
}
/* total size of the first element (0 if the header is incomplete) */
static size_t spec_tlv_elem_size(const unsigned char *m, size_t l) {
	return spec_tlv_dec_hdr_len(m, l) + spec_tlv_dec_dat_len(m, l);
}

/* ---- encoding ---------------------------------------------------------------------------- */
static int spec_tlv_encodable(unsigned tag, size_t n) { return tag <= SPEC_TLV_MAX_TAG && n <= SPEC_TLV_MAX_LEN; }
static int spec_tlv_short_form(unsigned tag, size_t n) { return tag <= 0x1f && n <= 0xff; }
static size_t spec_tlv_enc_hdr_len(unsigned tag, size_t n) { return spec_tlv_short_form(tag, n) ? 2 : 4; }
/* i-th octet of the header of (tag, nc, fwd, payload length n); requires encodable, i < hdr_len */
static unsigned char spec_tlv_enc_hdr_byte(unsigned tag, int nc, int fwd, size_t n, size_t i) {
	unsigned char fl = (unsigned char)((nc ? 0x40 : 0) | (fwd ? 0x20 : 0));
	if (spec_tlv_short_form(tag, n)) {
		if (i == 0) return (unsigned char)(fl | (tag & 0x1f));
		return (unsigned char)(n & 0xff);
	}
	if (i == 0) return (unsigned char)(0x80 | fl | ((tag >> 8) & 0x1f));
	if (i == 1) return (unsigned char)(tag & 0xff);
	if (i == 2) return (unsigned char)((n >> 8) & 0xff);
	return (unsigned char)(n & 0xff);
}
/* A serializer reports the total size T = n + hdr_len(tag, n).  T determines n (the map n -> T is
 * strictly increasing: it jumps from 0xff+2 to 0x100+4 for tag <= 0x1f).  Returns (size_t)-1 if no n fits. */
static size_t spec_tlv_payload_of_total(unsigned tag, size_t total) {
	if (tag <= 0x1f && total >= 2 && total - 2 <= 0xff) return total - 2;
	if (tag <= 0x1f && total >= 4 && total - 4 > 0xff) return total - 4;
	if (tag > 0x1f && total >= 4) return total - 4;
	return (size_t)-1;
}
#endif
