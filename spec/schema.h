/* Reference automaton for one level of a KSI TLV structure against a schema (property C10), written from the property
 * text and the flag documentation of tlv_template.h, not from tlv_template.c:
 *   - a schema is a list of entries (tag, flags, multiple); tags are pairwise distinct;
 *   - an element whose tag is in the schema is KNOWN: it is parsed as that entry;
 *       single-valued entries (multiple == 0) must not repeat;
 *       MOST_ONE_Gk: at most one element in total over the entries flagged for group k (mutually exclusive alternatives);
 *       FIXED_ORDER: elements of FIXED_ORDER entries appear in schema order (non-decreasing entry index);
 *       FIRST: nothing known precedes the element;  LAST: nothing known follows the element;
 *       its value must parse (value_ok);
 *   - an element whose tag is not in the schema is UNKNOWN: rejected unless flagged non-critical, in which case it is
 *     skipped: no effect on the state at all (criticality of KNOWN elements plays no role);
 *   - at the end: every MANDATORY entry occurred; for each group k that some entry is flagged LEAST_ONE_Gk for, at least
 *     one element of such an entry occurred.
 * The structure is accepted iff no step rejected and the end conditions hold.  Contains loops over the schema (at most
 * SPEC_SCHEMA_MAXT entries): for plain unwinding jobs and native replay. */
#ifndef SPEC_SCHEMA_H
#define SPEC_SCHEMA_H
#include <stddef.h>

/* flag bits: the public encoding of tlv_template.h */
#define SPEC_SCH_MANDATORY    0x04
#define SPEC_SCH_LEAST_ONE_G0 0x08
#define SPEC_SCH_LEAST_ONE_G1 0x10
#define SPEC_SCH_MOST_ONE_G0  0x80
#define SPEC_SCH_MOST_ONE_G1  0x100
#define SPEC_SCH_FIXED_ORDER  0x200
#define SPEC_SCH_FIRST        0x400
#define SPEC_SCH_LAST         0x800
#define SPEC_SCH_ALL (SPEC_SCH_MANDATORY | SPEC_SCH_LEAST_ONE_G0 | SPEC_SCH_LEAST_ONE_G1 | SPEC_SCH_MOST_ONE_G0 | \
	SPEC_SCH_MOST_ONE_G1 | SPEC_SCH_FIXED_ORDER | SPEC_SCH_FIRST | SPEC_SCH_LAST)

#define SPEC_SCHEMA_MAXT 8

typedef struct { unsigned tag; unsigned flags; int multiple; } spec_schema_entry;

typedef struct {
	const spec_schema_entry *t; size_t n;
	unsigned count[SPEC_SCHEMA_MAXT];      /* elements parsed per entry */
	size_t last_pos[SPEC_SCHEMA_MAXT];     /* stream position of the last element parsed for the entry */
	int most_one[2];                       /* an element of a MOST_ONE_Gk entry occurred */
	int least_one[2];                      /* an element of a LEAST_ONE_Gk entry occurred */
	int have_order; size_t max_order;      /* highest FIXED_ORDER entry index seen */
	int any_known;                         /* a known element occurred */
	int last_seen;                         /* a LAST element occurred */
	size_t pos;                            /* elements consumed */
	int rejected;                          /* 0, or the SPEC_SCH_REJ_* reason of the first violation */
} spec_schema_state;

/* reasons */
#define SPEC_SCH_REJ_UNKNOWN_CRITICAL 1
#define SPEC_SCH_REJ_REPEATED         2
#define SPEC_SCH_REJ_EXCLUSIVE        3
#define SPEC_SCH_REJ_ORDER            4
#define SPEC_SCH_REJ_FIRST            5
#define SPEC_SCH_REJ_LAST             6
#define SPEC_SCH_REJ_VALUE            7
#define SPEC_SCH_REJ_MANDATORY        8
#define SPEC_SCH_REJ_GROUP            9

static void spec_schema_init(spec_schema_state *s, const spec_schema_entry *t, size_t n) {
	size_t j;
	s->t = t; s->n = n;
	for (j = 0; j < SPEC_SCHEMA_MAXT; j++) { s->count[j] = 0; s->last_pos[j] = 0; }
	s->most_one[0] = s->most_one[1] = s->least_one[0] = s->least_one[1] = 0;
	s->have_order = 0; s->max_order = 0; s->any_known = 0; s->last_seen = 0; s->pos = 0; s->rejected = 0;
}

/* index of the entry with this tag, or -1 */
static int spec_schema_find(const spec_schema_state *s, unsigned tag) {
	size_t j;
	for (j = 0; j < s->n && j < SPEC_SCHEMA_MAXT; j++) if (s->t[j].tag == tag) return (int)j;
	return -1;
}

/* consume one element; returns the entry index it was parsed as, -1 if it was skipped or rejected */
static int spec_schema_step(spec_schema_state *s, unsigned tag, int non_critical, int value_ok) {
	int j; unsigned f;
	size_t pos = s->pos++;
	if (s->rejected) return -1;
	j = spec_schema_find(s, tag);
	if (j < 0) {                                           /* unknown element */
		if (!non_critical) s->rejected = SPEC_SCH_REJ_UNKNOWN_CRITICAL;
		return -1;                                         /* non-critical: skipped, state untouched */
	}
	f = s->t[j].flags;
	if (!s->t[j].multiple && s->count[j] > 0) { s->rejected = SPEC_SCH_REJ_REPEATED; return -1; }               /* single-valued repeated */
	if ((f & SPEC_SCH_MOST_ONE_G0) && s->most_one[0]) { s->rejected = SPEC_SCH_REJ_EXCLUSIVE; return -1; }       /* alternatives combined */
	if ((f & SPEC_SCH_MOST_ONE_G1) && s->most_one[1]) { s->rejected = SPEC_SCH_REJ_EXCLUSIVE; return -1; }
	if ((f & SPEC_SCH_FIXED_ORDER) && s->have_order && (size_t)j < s->max_order) { s->rejected = SPEC_SCH_REJ_ORDER; return -1; }
	if ((f & SPEC_SCH_FIRST) && s->any_known) { s->rejected = SPEC_SCH_REJ_FIRST; return -1; }
	if (s->last_seen) { s->rejected = SPEC_SCH_REJ_LAST; return -1; }
	if (!value_ok) { s->rejected = SPEC_SCH_REJ_VALUE; return -1; }
	s->count[j]++; s->last_pos[j] = pos;
	if (f & SPEC_SCH_MOST_ONE_G0) s->most_one[0] = 1;
	if (f & SPEC_SCH_MOST_ONE_G1) s->most_one[1] = 1;
	if (f & SPEC_SCH_LEAST_ONE_G0) s->least_one[0] = 1;
	if (f & SPEC_SCH_LEAST_ONE_G1) s->least_one[1] = 1;
	if (f & SPEC_SCH_FIXED_ORDER) { s->have_order = 1; s->max_order = (size_t)j; }
	if (f & SPEC_SCH_LAST) s->last_seen = 1;
	s->any_known = 1;
	return j;
}

/* 0 = the structure satisfies the schema, else the reason of the first violation (end conditions last) */
static int spec_schema_verdict(const spec_schema_state *s) {
	size_t j;
	if (s->rejected) return s->rejected;
	for (j = 0; j < s->n && j < SPEC_SCHEMA_MAXT; j++) {
		unsigned f = s->t[j].flags;
		if ((f & SPEC_SCH_MANDATORY) && s->count[j] == 0) return SPEC_SCH_REJ_MANDATORY;
		if ((f & SPEC_SCH_LEAST_ONE_G0) && !s->least_one[0]) return SPEC_SCH_REJ_GROUP;
		if ((f & SPEC_SCH_LEAST_ONE_G1) && !s->least_one[1]) return SPEC_SCH_REJ_GROUP;
	}
	return 0;
}
static int spec_schema_accepts(const spec_schema_state *s) { return spec_schema_verdict(s) == 0; }
#endif
