/* Reference for service-URI handling (C20), written from the property text:
 *   scheme recognition is case-insensitive;
 *   ksi, ksi+http -> HTTP transport, scheme rewritten to http;  ksi+https -> HTTP transport, rewritten to https;
 *   ksi+tcp -> TCP transport;  file -> file transport (blocking service only);  anything else -> unknown
 *   (blocking service: passed unchanged to the HTTP transport; asynchronous service: refused, as is file);
 *   credentials embedded in the URI are used only as login id / HMAC key, explicit arguments take precedence,
 *   and they never appear in the URL / host handed to the transport.
 * The string comparisons contain loops: plain-mode harnesses and native replay only. */
#ifndef SPEC_URI_H
#define SPEC_URI_H
#include <stddef.h>

enum { SPEC_URI_HTTP = 0, SPEC_URI_TCP = 1, SPEC_URI_FILE = 2, SPEC_URI_UNKNOWN = 3 };

static int spec_uri_lower(int c) { return (c >= 'A' && c <= 'Z') ? c + 32 : c; }
/* case-insensitive equality of a NUL-terminated string with a lower-case literal of at most 15 characters */
static int spec_uri_ieq(const char *s, const char *lit) {
	size_t i;
	for (i = 0; i < 16; i++) {
		if (spec_uri_lower(s[i]) != lit[i]) return 0;
		if (lit[i] == 0) return 1;
	}
	return 0;
}
/* transport class of a scheme; *replace = scheme to put into the URL handed to the HTTP transport, or NULL (unchanged / not applicable) */
static int spec_uri_class(const char *scheme, const char **replace) {
	*replace = NULL;
	if (scheme == NULL) return SPEC_URI_UNKNOWN;
	if (spec_uri_ieq(scheme, "ksi")) { *replace = "http"; return SPEC_URI_HTTP; }
	if (spec_uri_ieq(scheme, "ksi+http")) { *replace = "http"; return SPEC_URI_HTTP; }
	if (spec_uri_ieq(scheme, "ksi+https")) { *replace = "https"; return SPEC_URI_HTTP; }
	if (spec_uri_ieq(scheme, "ksi+tcp")) return SPEC_URI_TCP;
	if (spec_uri_ieq(scheme, "file")) return SPEC_URI_FILE;
	return SPEC_URI_UNKNOWN;
}
static int spec_uri_streq(const char *a, const char *b) {
	size_t i;
	if (a == NULL || b == NULL) return a == b;
	for (i = 0; i < 70000; i++) { if (a[i] != b[i]) return 0; if (a[i] == 0) return 1; }
	return 0;
}

/* ---- the pieces uriCompose has to emit, in order (loop-free: used by the ghost monitor of env/ghost_uri.h) ----
 * piece ids: 1 scheme "%s://", 2 user:pass@ , 3 host, 4 :port, 5 [/]path, 6 ?query, 7 #fragment, 8 = end */
typedef struct { int has_scheme, has_userpass, has_host, has_port, has_path, has_query, has_fragment; } spec_uri_parts;
static int spec_uri_piece_present(const spec_uri_parts *p, int id) {
	return id == 1 ? p->has_scheme : id == 2 ? p->has_userpass : id == 3 ? p->has_host : id == 4 ? p->has_port :
	       id == 5 ? p->has_path : id == 6 ? p->has_query : id == 7 ? p->has_fragment : 1;
}
/* the first present piece with id > after (8 when none) */
static int spec_uri_next_piece(const spec_uri_parts *p, int after) {
	if (after < 1 && p->has_scheme) return 1;
	if (after < 2 && p->has_userpass) return 2;
	if (after < 3 && p->has_host) return 3;
	if (after < 4 && p->has_port) return 4;
	if (after < 5 && p->has_path) return 5;
	if (after < 6 && p->has_query) return 6;
	if (after < 7 && p->has_fragment) return 7;
	return 8;
}
#endif
