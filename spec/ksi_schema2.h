/* Second part of the KSI schema as constants (property C10) - the templates spec/ksi_schema.h left out: the
 * configuration / acknowledgment payloads and the version-1 response payloads.
 * TRANSCRIBED from the KSI gateway protocol as the property text and the public headers describe it (types.h field
 * documentation of KSI_Config: maximum level, aggregation algorithm, aggregation period, maximum requests, parent URIs,
 * calendar first / last time; KSI_RequestAck: aggregation period / delay / drift, request / receipt / acknowledge
 * time) - NOT generated from the tables of tlv_template.c.  Same line format and value kinds as spec/ksi_schema.h:
 *   E(template, index, tag, schema flags, multiple (0 single / 1 list), value kind, meaning)
 * What the schema demands of these payloads (property: "mandatory elements present, single-valued elements not
 * repeated"): every configuration / acknowledgment field is optional and single-valued, the parent URI may repeat; a
 * version-1 response carries exactly one request id; the version-1 acknowledgment 0x11 carries both its fields.
 * obligations/C10/schema2_tables.c asserts every line against the real constant tables of tlv_template.c. */
#ifndef SPEC_KSI_SCHEMA2_H
#define SPEC_KSI_SCHEMA2_H
#include "spec/ksi_schema.h"

/* version-1 configuration 0x10 (inside an aggregation request / response payload): all optional */
#define KSI_SCHEMA_KSI_Config(E) \
	E(KSI_Config, 0, 0x01, 0, 0, INT, "maximum level, optional single") \
	E(KSI_Config, 1, 0x02, 0, 0, INT, "aggregation algorithm, optional single") \
	E(KSI_Config, 2, 0x03, 0, 0, INT, "aggregation period, optional single") \
	E(KSI_Config, 3, 0x04, 0, 1, UTF8, "parent URI, any number") \
	E##_END(KSI_Config, 4)

/* aggregator configuration payload 0x04 of PDU 0x0220 / 0x0221: all optional */
#define KSI_SCHEMA_KSI_AggregationConf(E) \
	E(KSI_AggregationConf, 0, 0x01, 0, 0, INT, "maximum level, optional single") \
	E(KSI_AggregationConf, 1, 0x02, 0, 0, INT, "aggregation algorithm, optional single") \
	E(KSI_AggregationConf, 2, 0x03, 0, 0, INT, "aggregation period, optional single") \
	E(KSI_AggregationConf, 3, 0x04, 0, 0, INT, "maximum requests, optional single") \
	E(KSI_AggregationConf, 4, 0x10, 0, 1, UTF8, "parent URI, any number") \
	E##_END(KSI_AggregationConf, 5)

/* extender configuration payload 0x04 of PDU 0x0320 / 0x0321: all optional */
#define KSI_SCHEMA_KSI_ExtendConf(E) \
	E(KSI_ExtendConf, 0, 0x04, 0, 0, INT, "maximum requests, optional single") \
	E(KSI_ExtendConf, 1, 0x10, 0, 1, UTF8, "parent URI, any number") \
	E(KSI_ExtendConf, 2, 0x11, 0, 0, INT, "calendar first time, optional single") \
	E(KSI_ExtendConf, 3, 0x12, 0, 0, INT, "calendar last time, optional single") \
	E##_END(KSI_ExtendConf, 4)

/* configuration request wrapper: one optional configuration 0x04 */
#define KSI_SCHEMA_KSI_ConfigReq(E) \
	E(KSI_ConfigReq, 0, 0x04, 0, 0, COMP(KSI_Config), "configuration, optional single") \
	E##_END(KSI_ConfigReq, 1)

/* version-1 acknowledgment 0x11: both fields present */
#define KSI_SCHEMA_KSI_RequestAck(E) \
	E(KSI_RequestAck, 0, 0x01, KSI_TLV_TMPL_FLG_MANDATORY, 0, INT, "aggregation period, mandatory single") \
	E(KSI_RequestAck, 1, 0x02, KSI_TLV_TMPL_FLG_MANDATORY, 0, INT, "aggregation delay, mandatory single") \
	E##_END(KSI_RequestAck, 2)

/* acknowledgment request payload 0x05 of PDU 0x0220 */
#define KSI_SCHEMA_KSI_AggregationAckReq(E) \
	E(KSI_AggregationAckReq, 0, 0x01, 0, 0, INT, "request time, optional single") \
	E##_END(KSI_AggregationAckReq, 1)

/* acknowledgment payload 0x05 of PDU 0x0221: all optional */
#define KSI_SCHEMA_KSI_AggregationAck(E) \
	E(KSI_AggregationAck, 0, 0x01, 0, 0, INT, "request time, optional single") \
	E(KSI_AggregationAck, 1, 0x02, 0, 0, INT, "receipt time, optional single") \
	E(KSI_AggregationAck, 2, 0x03, 0, 0, INT, "acknowledge time, optional single") \
	E(KSI_AggregationAck, 3, 0x04, 0, 0, INT, "aggregation delay, optional single") \
	E(KSI_AggregationAck, 4, 0x05, 0, 0, INT, "aggregation period, optional single") \
	E(KSI_AggregationAck, 5, 0x06, 0, 0, INT, "aggregation drift, optional single") \
	E##_END(KSI_AggregationAck, 6)

/* version-1 aggregation response payload 0x0202 */
#define KSI_SCHEMA_KSI_AggregationResp(E) \
	E(KSI_AggregationResp, 0, 0x01, KSI_TLV_TMPL_FLG_MANDATORY, 0, INT, "request id, mandatory single") \
	E(KSI_AggregationResp, 1, 0x04, 0, 0, INT, "status, single") \
	E(KSI_AggregationResp, 2, 0x05, 0, 0, UTF8, "error message, optional single") \
	E(KSI_AggregationResp, 3, 0x10, 0, 0, COMP(KSI_Config), "configuration, optional single") \
	E(KSI_AggregationResp, 4, 0x11, 0, 0, COMP(KSI_RequestAck), "acknowledgment, optional single") \
	E(KSI_AggregationResp, 5, 0x801, 0, 1, COMP(KSI_AggregationHashChain), "aggregation hash chains") \
	E(KSI_AggregationResp, 6, 0x802, 0, 0, COMP(KSI_CalendarHashChain), "calendar hash chain, single") \
	E(KSI_AggregationResp, 7, 0x804, 0, 0, COMP(KSI_AggregationAuthRec), "aggregation auth record, single") \
	E(KSI_AggregationResp, 8, 0x805, 0, 0, COMP(KSI_CalendarAuthRec), "calendar auth record, single") \
	E##_END(KSI_AggregationResp, 9)

/* version-1 extension response payload 0x0302 */
#define KSI_SCHEMA_KSI_ExtendResp(E) \
	E(KSI_ExtendResp, 0, 0x01, KSI_TLV_TMPL_FLG_MANDATORY, 0, INT, "request id, mandatory single") \
	E(KSI_ExtendResp, 1, 0x04, 0, 0, INT, "status, single") \
	E(KSI_ExtendResp, 2, 0x05, 0, 0, UTF8, "error message, optional single") \
	E(KSI_ExtendResp, 3, 0x10, 0, 0, INT, "last time, optional single") \
	E(KSI_ExtendResp, 4, 0x802, 0, 0, COMP(KSI_CalendarHashChain), "calendar hash chain, single") \
	E##_END(KSI_ExtendResp, 5)

#define KSI_SCHEMA_ALL_TLV_TEMPLATE_2(E) \
	KSI_SCHEMA_KSI_Config(E) \
	KSI_SCHEMA_KSI_AggregationConf(E) \
	KSI_SCHEMA_KSI_ExtendConf(E) \
	KSI_SCHEMA_KSI_ConfigReq(E) \
	KSI_SCHEMA_KSI_RequestAck(E) \
	KSI_SCHEMA_KSI_AggregationAckReq(E) \
	KSI_SCHEMA_KSI_AggregationAck(E) \
	KSI_SCHEMA_KSI_AggregationResp(E) \
	KSI_SCHEMA_KSI_ExtendResp(E)

/* number of templates defined in tlv_template.c = templates of spec/ksi_schema.h (26) + the 9 above */
#define KSI_SCHEMA_TLV_TEMPLATE_COUNT 35
#endif
