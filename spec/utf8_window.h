/* Window formulation of the UTF-8 payload predicate of spec/utf8.h, used for the every-length contract of verifyUtf8
 * (C10, builderO).  spec_utf8_local(b, len, p) of spec/utf8.h is the predicate of ONE position p; the payload is well
 * formed <=> len >= 1, b[len-1] == 0 and spec_utf8_local(b, len, p) for every p < len (lemma, checked for len <= 7 by
 * job C10.utf8w_lemma).  A contract proves it for a nondeterministic WITNESS position fixed before the call.
 *
 * spec_utf8_upto(b, len, p, e): what is known about position p once the scan has completed every character that
 * starts before the character boundary e (e <= len): the same as spec_utf8_local, except that the character must end
 * at or before e and "the octet after the character is not a continuation octet" is only known if that octet lies
 * before e.  spec_utf8_upto(b, len, p, len) == spec_utf8_local(b, len, p).
 * The loop invariants in contracts/types_base_utf8w.loops.json are this function written out as an expression. */
#ifndef SPEC_UTF8_WINDOW_H
#define SPEC_UTF8_WINDOW_H
#include "spec/utf8.h"

static int spec_utf8_upto(const unsigned char *b, size_t len, size_t p, size_t e) {
	int n;
	if (p >= e) return 1;
	if (b[p] == 0 && p + 1 != len) return 0;
	if (spec_utf8_is_cont(b[p])) return p != 0;
	n = spec_utf8_lead(b[p]);
	if (n < 0) return 0;
	if (p + (size_t)n + 1 > e) return 0;
	if (n >= 1 && !spec_utf8_is_cont(b[p + 1])) return 0;
	if (n >= 2 && !spec_utf8_is_cont(b[p + 2])) return 0;
	if (n >= 3 && !spec_utf8_is_cont(b[p + 3])) return 0;
	if (p + (size_t)n + 1 < e && spec_utf8_is_cont(b[p + (size_t)n + 1])) return 0;
	return 1;
}
#endif
