/* KSI UTF-8 string payload (property C10: "strings NUL-terminated without embedded NUL and with well-formed UTF-8
 * lead/continuation structure").  Written from the property text and RFC 3629, not from types_base.c.
 *   - the payload has at least one octet and its last octet is NUL; no other octet is NUL;
 *   - the octets form a sequence of characters; a character is a lead octet followed by exactly n continuation
 *     octets (10xxxxxx = 0x80..0xbf) where n is given by the lead: 0xxxxxxx -> 0, 110xxxxx -> 1, 1110xxxx -> 2,
 *     11110xxx up to 0xf4 (RFC 3629: no code point above U+10FFFF, so no lead above 0xf4) -> 3;
 *   - anything else (a stray continuation octet, 0xf5..0xff, a character cut short by the end or by a non-continuation
 *     octet) is malformed.
 * Only the STRUCTURE is required by the property: overlong forms (0xc0, 0xc1, e0 80.., f0 80..), surrogates and
 * f4 90.. are not excluded.
 * Reference automaton: state = number of continuation octets still owed (0..3) or SPEC_UTF8_REJ. */
#ifndef SPEC_UTF8_H
#define SPEC_UTF8_H
#include <stddef.h>

#define SPEC_UTF8_REJ (-1)

/* number of continuation octets announced by lead octet c, or -1 if c cannot start a character */
static int spec_utf8_lead(unsigned char c) {
	if (c <= 0x7f) return 0;
	if ((c & 0xe0) == 0xc0) return 1;
	if ((c & 0xf0) == 0xe0) return 2;
	if ((c & 0xf8) == 0xf0 && c <= 0xf4) return 3;
	return -1;
}
static int spec_utf8_is_cont(unsigned char c) { return (c & 0xc0) == 0x80; }

/* one step of the reference automaton; is_last: c is the final octet of the payload */
static int spec_utf8_step(int st, unsigned char c, int is_last) {
	if (st == SPEC_UTF8_REJ) return SPEC_UTF8_REJ;
	if (st > 0) return spec_utf8_is_cont(c) ? st - 1 : SPEC_UTF8_REJ;
	if (c == 0 && !is_last) return SPEC_UTF8_REJ;
	return spec_utf8_lead(c);
}

/* whole-payload predicate (contains a loop: native replay and plain unwinding jobs only) */
static int spec_utf8_wellformed(const unsigned char *b, size_t len) {
	size_t i; int st = 0;
	if (len == 0 || b[len - 1] != 0) return 0;
	for (i = 0; i < len; i++) st = spec_utf8_step(st, b[i], i + 1 == len);
	return st == 0;
}

/* Local (window) formulation of the same predicate, loop-free, for witness-index contracts:
 * the payload is well formed  <=>  len >= 1, last octet NUL, and spec_utf8_local(b, len, p) for EVERY p < len.
 *  p == 0 is not a continuation octet; a NUL only at len-1; every non-continuation octet is a valid lead that is
 *  followed by exactly its announced number of continuation octets (and then by the end or a non-continuation octet). */
static int spec_utf8_local(const unsigned char *b, size_t len, size_t p) {
	int n;
	if (p >= len) return 1;
	if (b[p] == 0 && p + 1 != len) return 0;
	if (spec_utf8_is_cont(b[p])) return p != 0;
	n = spec_utf8_lead(b[p]);
	if (n < 0) return 0;
	if (n >= 1 && !(p + 1 < len && spec_utf8_is_cont(b[p + 1]))) return 0;
	if (n >= 2 && !(p + 2 < len && spec_utf8_is_cont(b[p + 2]))) return 0;
	if (n >= 3 && !(p + 3 < len && spec_utf8_is_cont(b[p + 3]))) return 0;
	if (p + (size_t)n + 1 < len && spec_utf8_is_cont(b[p + (size_t)n + 1])) return 0;
	return 1;
}
#endif
