/* Reference for the right-link compatibility of two calendar hash chains (C08), from the property text:
 * "... whose right links agree with the signature's previous calendar chain": the subsequence of RIGHT links
 * (isLeft == 0) of chain a and the subsequence of right links of chain b have the same length and are equal
 * element by element (k-th right link of a  ==  k-th right link of b).  Left links are irrelevant.
 *
 * Two forms: (1) a two-cursor reference machine advanced one fetched link at a time (ghost monitor for CBMC),
 *            (2) a whole-array predicate for the native replay driver. */
#ifndef SPEC_RIGHTLINKS_H
#define SPEC_RIGHTLINKS_H
#include <stddef.h>

typedef struct {
	size_t a_right;     /* right links of a seen so far */
	size_t b_right;     /* right links of b seen so far */
	size_t compared;    /* pairs (k-th right of a, k-th right of b) compared so far, k = 0..compared-1 */
	int unequal;        /* some compared pair was unequal */
} spec_rl_state;

static void spec_rl_init(spec_rl_state *s) { s->a_right = 0; s->b_right = 0; s->compared = 0; s->unequal = 0; }
static void spec_rl_fetch_a(spec_rl_state *s, int isLeft) { if (!isLeft) s->a_right++; }
static void spec_rl_fetch_b(spec_rl_state *s, int isLeft) { if (!isLeft) s->b_right++; }
/* a comparison is legitimate only between the newest right link of a and the newest right link of b with equal rank */
static int spec_rl_may_compare(const spec_rl_state *s) { return s->a_right == s->b_right && s->compared + 1 == s->a_right; }
static void spec_rl_compared(spec_rl_state *s, int equal) { s->compared++; if (!equal) s->unequal = 1; }
/* verdict once both chains are exhausted */
static int spec_rl_compatible(const spec_rl_state *s) { return s->a_right == s->b_right && s->compared == s->a_right && !s->unequal; }

/* (2) arrays: left[i] != 0 for a left link, id[i] identifies the sibling hash value */
static int spec_rl_compatible_arrays(const int *a_left, const int *a_id, size_t na, const int *b_left, const int *b_id, size_t nb) {
	size_t i = 0, j = 0;
	for (;;) {
		while (i < na && a_left[i]) i++;
		while (j < nb && b_left[j]) j++;
		if (i == na || j == nb) return i == na && j == nb;
		if (a_id[i] != b_id[j]) return 0;
		i++; j++;
	}
}
#endif
