/* Reference serialization of a TLV tree of depth <= 1 (a parent whose payload is the concatenation of the canonical
 * encodings of its children, in order), written from the TLV format description and the text of property C09 - NOT
 * from tlv.c / tlv_element.c.  Built on spec/tlv.h (header form, header octets).
 *
 *   enc(leaf)    = hdr(tag, flags, len) ++ payload
 *   enc(parent)  = hdr(tag, flags, S) ++ enc(child_0) ++ ... ++ enc(child_{n-1}),   S = sum of |enc(child_i)|
 *   encodable    = every payload length (the leaves' and S) <= 0xffff, every tag <= 0x1fff
 *
 * Also the reference for the child-list edits of the tree APIs (append / replace at / remove at) as operations on an
 * array of child identities: exactly the named position changes, everything else keeps identity and order.
 * Loops run over at most SPEC_TT_MAX children (plain-mode harnesses and native replay drivers; not for dfcc contracts). */
#ifndef SPEC_TLVTREE_H
#define SPEC_TLVTREE_H
#include "spec/tlv.h"

#ifndef SPEC_TT_MAX
#define SPEC_TT_MAX 5
#endif

typedef struct {
	unsigned tag; int nc; int fwd;
	size_t len;                         /* payload length */
	const unsigned char *pay;           /* payload octets (len of them) */
} spec_tt_leaf;

static size_t spec_tt_leaf_size(const spec_tt_leaf *l) { return spec_tlv_enc_hdr_len(l->tag, l->len) + l->len; }
/* k-th octet of enc(leaf), k < spec_tt_leaf_size */
static unsigned char spec_tt_leaf_byte(const spec_tt_leaf *l, size_t k) {
	size_t h = spec_tlv_enc_hdr_len(l->tag, l->len);
	if (k < h) return spec_tlv_enc_hdr_byte(l->tag, l->nc, l->fwd, l->len, k);
	return l->pay[k - h];
}
/* S: length of the parent's payload */
static size_t spec_tt_payload_size(const spec_tt_leaf *c, size_t n) {
	size_t i, s = 0;
	for (i = 0; i < SPEC_TT_MAX; i++) if (i < n) s += spec_tt_leaf_size(&c[i]);
	return s;
}
/* where child i starts inside the parent's payload */
static size_t spec_tt_child_off(const spec_tt_leaf *c, size_t n, size_t idx) {
	size_t i, s = 0;
	for (i = 0; i < SPEC_TT_MAX; i++) if (i < n && i < idx) s += spec_tt_leaf_size(&c[i]);
	return s;
}
static int spec_tt_encodable(unsigned tag, const spec_tt_leaf *c, size_t n) {
	size_t i;
	if (!spec_tlv_encodable(tag, spec_tt_payload_size(c, n))) return 0;
	for (i = 0; i < SPEC_TT_MAX; i++) if (i < n && !spec_tlv_encodable(c[i].tag, c[i].len)) return 0;
	return 1;
}
/* k-th octet of the parent's PAYLOAD (k < S) */
static unsigned char spec_tt_payload_byte(const spec_tt_leaf *c, size_t n, size_t k) {
	size_t i, s = 0;
	for (i = 0; i < SPEC_TT_MAX; i++) {
		if (i < n) {
			size_t t = spec_tt_leaf_size(&c[i]);
			if (k >= s && k - s < t) return spec_tt_leaf_byte(&c[i], k - s);
			s += t;
		}
	}
	return 0;
}
static size_t spec_tt_size(unsigned tag, const spec_tt_leaf *c, size_t n) {
	size_t s = spec_tt_payload_size(c, n);
	return spec_tlv_enc_hdr_len(tag, s) + s;
}
/* k-th octet of enc(parent), k < spec_tt_size */
static unsigned char spec_tt_byte(unsigned tag, int nc, int fwd, const spec_tt_leaf *c, size_t n, size_t k) {
	size_t s = spec_tt_payload_size(c, n), h = spec_tlv_enc_hdr_len(tag, s);
	if (k < h) return spec_tlv_enc_hdr_byte(tag, nc, fwd, s, k);
	return spec_tt_payload_byte(c, n, k - h);
}

/* ---- child-list edits on an array of identities (id[i] names the object at position i) ------------------------------ */
/* number of children carrying `tag`; *first = position of the first one */
static size_t spec_tt_count_tag(const unsigned *tags, size_t n, unsigned tag, size_t *first) {
	size_t i, cnt = 0;
	for (i = 0; i < SPEC_TT_MAX; i++) if (i < n && tags[i] == tag) { if (cnt == 0 && first) *first = i; cnt++; }
	return cnt;
}
/* identity at position j after removing position pos from a view of n children (j < n - 1) */
static size_t spec_tt_after_remove(size_t pos, size_t j) { return j < pos ? j : j + 1; }

/* ---- minimal big-endian unsigned integer (value payloads) ------------------------------------------------------------ */
/* number of octets of the minimal encoding: 0 for the value 0, no leading zero octet */
static size_t spec_tt_uint_len(unsigned long long v) {
	size_t n = 0;
	if (v != 0) n = (size_t)(64 - __builtin_clzll(v) + 7) / 8;
	return n;
}
/* i-th octet (most significant first) of the minimal encoding, i < spec_tt_uint_len(v) */
static unsigned char spec_tt_uint_byte(unsigned long long v, size_t i) {
	size_t n = spec_tt_uint_len(v);
	return (unsigned char)((v >> (8 * (n - 1 - i))) & 0xff);
}
#endif
