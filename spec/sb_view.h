/* spec/sb_view.h - the ARRAY VIEW of the child list of a signature's base TLV (sig->baseTlv, tag 0x800) and the
 * reference semantics of the three child-list operations C08 talks about.  Written from the PROPERTY TEXT of C08:
 *   "The result keeps the original aggregation chains unchanged, carries the new calendar chain and the supplied
 *    publication record with any former publication or authentication record removed"
 * and from the KSI signature format (tags of the children of 0x800):
 *   0x801 aggregation hash chain (1..n)   0x802 calendar hash chain (0..1)   0x803 publication record (0..1)
 *   0x804 aggregation auth record (0..1)  0x805 calendar auth record (0..1)  0x806 RFC 3161 record (0..1)
 *   any other tag: unknown element (kept when non-critical).
 * A view is the sequence (id_0, tag_0) .. (id_{n-1}, tag_{n-1}); id = identity of the child object.
 * Pure C, usable natively (replay drivers) and under CBMC (plain mode: loops bounded by SBV_MAX). */
#ifndef SPEC_SB_VIEW_H
#define SPEC_SB_VIEW_H
#include <stddef.h>
#ifdef LIBKSI_VERIF            /* the views are local objects of the harness: the pointer checks inside the spec are noise */
#pragma CPROVER check push
#pragma CPROVER check disable "pointer"
#pragma CPROVER check disable "pointer-overflow"
#endif

#define SBV_MAX 8                    /* capacity of a view (jobs bound the number of children to <= 6, +1 appended) */
#define SBV_TAG_AGGR      0x0801u
#define SBV_TAG_CAL       0x0802u
#define SBV_TAG_PUB       0x0803u
#define SBV_TAG_AGGR_AUTH 0x0804u
#define SBV_TAG_CAL_AUTH  0x0805u
#define SBV_TAG_RFC3161   0x0806u

typedef struct sb_view_st {
	size_t n;
	const void *id[SBV_MAX];
	unsigned tag[SBV_MAX];
} sb_view;

static void sbv_clear(sb_view *v) {
	size_t i;
	v->n = 0;
	for (i = 0; i < SBV_MAX; i++) { v->id[i] = NULL; v->tag[i] = 0; }
}

static void sbv_push(sb_view *v, const void *id, unsigned tag) {
	if (v->n < SBV_MAX) { v->id[v->n] = id; v->tag[v->n] = tag; v->n++; }
}

/* a == b as sequences of (identity, tag) */
static int sbv_equal(const sb_view *a, const sb_view *b) {
	size_t i;
	if (a->n != b->n) return 0;
	for (i = 0; i < SBV_MAX; i++) {
		if (i < a->n && (a->id[i] != b->id[i] || a->tag[i] != b->tag[i])) return 0;
	}
	return 1;
}

static size_t sbv_count(const sb_view *v, unsigned tag) {
	size_t i, c = 0;
	for (i = 0; i < SBV_MAX; i++) if (i < v->n && v->tag[i] == tag) c++;
	return c;
}

static int sbv_contains(const sb_view *v, const void *id) {
	size_t i;
	for (i = 0; i < SBV_MAX; i++) if (i < v->n && v->id[i] == id) return 1;
	return 0;
}

/* index of the first child with the tag, or v->n */
static size_t sbv_first(const sb_view *v, unsigned tag) {
	size_t i;
	for (i = 0; i < SBV_MAX; i++) if (i < v->n && v->tag[i] == tag) return i;
	return v->n;
}

/* "any former publication or authentication record removed": exactly the children tagged 0x803 / 0x805 disappear,
 * every other child keeps identity and relative order. */
static int sbv_is_anchor_tag(unsigned tag) { return tag == SBV_TAG_PUB || tag == SBV_TAG_CAL_AUTH; }
static void sbv_remove_anchors(const sb_view *in, sb_view *out) {
	size_t i;
	sbv_clear(out);
	for (i = 0; i < SBV_MAX; i++) if (i < in->n && !sbv_is_anchor_tag(in->tag[i])) sbv_push(out, in->id[i], in->tag[i]);
}

/* "carries the new calendar chain": the (first) child tagged 0x802 is replaced IN PLACE by the new child; a signature
 * without calendar chain gets the new child appended.  Nothing else moves. */
static void sbv_replace_cal(const sb_view *in, const void *newId, sb_view *out) {
	size_t i, k = sbv_first(in, SBV_TAG_CAL);
	sbv_clear(out);
	for (i = 0; i < SBV_MAX; i++) if (i < in->n) {
		if (i == k) sbv_push(out, newId, SBV_TAG_CAL); else sbv_push(out, in->id[i], in->tag[i]);
	}
	if (k == in->n) sbv_push(out, newId, SBV_TAG_CAL);
}

/* a child appended at the end */
static void sbv_append(const sb_view *in, const void *newId, unsigned tag, sb_view *out) {
	size_t i;
	sbv_clear(out);
	for (i = 0; i < SBV_MAX; i++) if (i < in->n) sbv_push(out, in->id[i], in->tag[i]);
	sbv_push(out, newId, tag);
}

/* the part of a signature that extending must not touch: every child that is neither calendar chain, publication
 * record nor calendar auth record (aggregation chains, aggregation auth record, RFC 3161 record, unknown elements) */
static int sbv_is_kept_tag(unsigned tag) { return tag != SBV_TAG_CAL && !sbv_is_anchor_tag(tag); }
static void sbv_kept_part(const sb_view *in, sb_view *out) {
	size_t i;
	sbv_clear(out);
	for (i = 0; i < SBV_MAX; i++) if (i < in->n && sbv_is_kept_tag(in->tag[i])) sbv_push(out, in->id[i], in->tag[i]);
}

/* extending = new calendar chain, anchors removed */
static void sbv_extend(const sb_view *in, const void *newCal, sb_view *out) {
	sb_view t;
	sbv_replace_cal(in, newCal, &t);
	sbv_remove_anchors(&t, out);
}

/* the supplied publication record: anchors removed, new 0x803 child appended */
static void sbv_set_publication(const sb_view *in, const void *newPub, sb_view *out) {
	sb_view t;
	sbv_remove_anchors(in, &t);
	sbv_append(&t, newPub, SBV_TAG_PUB, out);
}

/* ---- the same statements in WITNESS form (one arbitrary index w instead of a constructed sequence; cheaper for the
 * SAT back end, equivalent: the kept children map one-to-one and in order onto 0 .. n'-1).  Natively: loop over all w. */
static size_t sbv_anchors_before(const sb_view *v, size_t w) {
	size_t i, c = 0;
	for (i = 0; i < SBV_MAX; i++) if (i < v->n && i < w && sbv_is_anchor_tag(v->tag[i])) c++;
	return c;
}
/* now == sbv_remove_anchors(old), looked at through index w of old */
static int sbv_wit_remove_anchors(const sb_view *old, const sb_view *now, size_t w) {
	size_t a = sbv_anchors_before(old, old->n);
	if (now->n + a != old->n) return 0;
	if (w >= old->n || sbv_is_anchor_tag(old->tag[w])) return 1;
	{
		size_t p = w - sbv_anchors_before(old, w);
		return p < now->n && now->id[p] == old->id[w] && now->tag[p] == old->tag[w];
	}
}
/* now == sbv_replace_cal(old, newId), looked at through index w */
static int sbv_wit_replace_cal(const sb_view *old, const sb_view *now, const void *newId, size_t w) {
	size_t k = sbv_first(old, SBV_TAG_CAL);
	if (now->n != old->n + (k == old->n ? 1 : 0)) return 0;
	if (k >= SBV_MAX || now->id[k] != newId || now->tag[k] != SBV_TAG_CAL) return 0;
	if (w >= old->n || w == k) return 1;
	return now->id[w] == old->id[w] && now->tag[w] == old->tag[w];
}
/* now == sbv_extend(old, newCal), looked at through index w */
static int sbv_wit_extend(const sb_view *old, const sb_view *now, const void *newCal, size_t w) {
	size_t k = sbv_first(old, SBV_TAG_CAL);
	size_t a = sbv_anchors_before(old, old->n);
	if (now->n + a != old->n + (k == old->n ? 1 : 0)) return 0;
	{
		size_t pk = k - sbv_anchors_before(old, k);          /* where the calendar chain child ends up */
		if (pk >= now->n || now->id[pk] != newCal || now->tag[pk] != SBV_TAG_CAL) return 0;
	}
	if (w >= old->n || w == k || sbv_is_anchor_tag(old->tag[w])) return 1;
	{
		size_t p = w - sbv_anchors_before(old, w);
		return p < now->n && now->id[p] == old->id[w] && now->tag[p] == old->tag[w];
	}
}
/* now == sbv_set_publication(old, newPub), looked at through index w */
static int sbv_wit_set_publication(const sb_view *old, const sb_view *now, const void *newPub, size_t w) {
	size_t a = sbv_anchors_before(old, old->n);
	if (now->n + a != old->n + 1) return 0;
	if (now->n == 0 || now->n > SBV_MAX || now->id[now->n - 1] != newPub || now->tag[now->n - 1] != SBV_TAG_PUB) return 0;
	if (w >= old->n || sbv_is_anchor_tag(old->tag[w])) return 1;
	{
		size_t p = w - sbv_anchors_before(old, w);
		return p + 1 < now->n && now->id[p] == old->id[w] && now->tag[p] == old->tag[w];
	}
}
/* the kept part (everything but calendar chain and anchors) of old and now agree, looked at through index w of old:
 * same number of kept children, and the w-th child of old, if kept, is the (number of kept children before w)-th kept child of now */
static size_t sbv_kept_before(const sb_view *v, size_t w) {
	size_t i, c = 0;
	for (i = 0; i < SBV_MAX; i++) if (i < v->n && i < w && sbv_is_kept_tag(v->tag[i])) c++;
	return c;
}
/* index of the j-th kept child of v, or v->n */
static size_t sbv_kept_nth(const sb_view *v, size_t j) {
	size_t i, c = 0;
	for (i = 0; i < SBV_MAX; i++) if (i < v->n && sbv_is_kept_tag(v->tag[i])) { if (c == j) return i; c++; }
	return v->n;
}
static int sbv_wit_kept_equal(const sb_view *old, const sb_view *now, size_t w) {
	if (sbv_kept_before(old, old->n) != sbv_kept_before(now, now->n)) return 0;
	if (w >= old->n || !sbv_is_kept_tag(old->tag[w])) return 1;
	{
		size_t q = sbv_kept_nth(now, sbv_kept_before(old, w));
		return q < now->n && now->id[q] == old->id[w] && now->tag[q] == old->tag[w];
	}
}

/* ---- C10: structural constraints of a signature (signature_builder.c checkSignatureInternals) ----------------------
 * From the KSI format / the property text ("mandatory elements present ... mutually exclusive alternatives not combined,
 * at-least-one groups non-empty"):
 *   - at least one aggregation hash chain,
 *   - a publication record or a calendar auth record needs a calendar hash chain,
 *   - publication record and calendar auth record exclude each other. */
static int sb_sig_schema_ok(size_t aggrChains, int hasCal, int hasCalAuth, int hasPub) {
	if (aggrChains == 0) return 0;
	if (!hasCal && (hasCalAuth || hasPub)) return 0;
	if (hasCalAuth && hasPub) return 0;
	return 1;
}
#ifdef LIBKSI_VERIF
#pragma CPROVER check pop
#endif
#endif
