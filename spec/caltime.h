/* Reference derivation of the registration (aggregation) time of a calendar hash chain.
 * Written from the property text (C03) and the KSI format description, not from hashchain.c:
 * the calendar tree over seconds 0..pubTime is walked from the root (last link) to the leaf
 * (first link).  At a node covering r+1 leaves (r > 0) the left subtree is the largest perfect
 * tree, 2^k leaves with 2^k <= r.  A LEFT link means "we are the left child": descend into
 * the perfect subtree (r' = 2^k - 1).  A RIGHT link means "we are the right child": skip the 2^k
 * leaves of the left subtree (t += 2^k, r' = r - 2^k).  The walk must end exactly on a leaf
 * (r == 0); a node with r <= 0 cannot have children.
 * Used by CBMC contracts (ghost machine) and by the native replay driver. */
#ifndef SPEC_CALTIME_H
#define SPEC_CALTIME_H

typedef struct { long long r; long long t; int rejected; } spec_cal_state;

/* largest power of two <= n, for n > 0: 2^k with k the index of the most significant set bit */
static long long spec_pow2_floor(long long n) {
	return 1LL << (63 - __builtin_clzll((unsigned long long)n));
}

static void spec_cal_init(spec_cal_state *s, long long pubTime) { s->r = pubTime; s->t = 0; s->rejected = 0; }

static void spec_cal_step(spec_cal_state *s, int isLeft) {
	long long p;
	if (s->rejected) return;
	if (s->r <= 0) { s->rejected = 1; return; }
	p = spec_pow2_floor(s->r);
	if (isLeft) { s->r = p - 1; }
	else { s->t += p; s->r -= p; }
}

static int spec_cal_accepts(const spec_cal_state *s) { return !s->rejected && s->r == 0; }

#endif
