/* Reference for the base-32 layer of publication strings (C17), written from the property text and RFC 4648,
 * not from base32.c:
 *   alphabet  A-Z (values 0..25) and 2-7 (values 26..31), letters case-insensitive on input;
 *   a symbol carries 5 bits, most significant first; bit k of the stream is bit (7 - k%8) of byte k/8;
 *   decoding: '-' is a group separator and is skipped, '=' ends the data, only alphabet symbols contribute
 *             data bits, trailing bits that do not fill a byte are dropped;
 *   encoding: ceil(8n/5) symbols (last one zero-filled), padded with '=' to a multiple of 8 symbols,
 *             the padded sequence cut into groups of g characters joined by '-' (g == 0: no grouping).
 * Functions in the first part are loop-free (usable from contracts and ghost stubs under dfcc);
 * the *_ref functions at the end contain loops: plain-mode harnesses and native replay only. */
#ifndef SPEC_BASE32_H
#define SPEC_BASE32_H
#include <stddef.h>

/* value of a character of the alphabet, -1 for every other character (ch = value of the char, may be negative) */
static int spec_b32_value(int ch) {
	if (ch >= 'A' && ch <= 'Z') return ch - 'A';
	if (ch >= 'a' && ch <= 'z') return ch - 'a';
	if (ch >= '2' && ch <= '7') return 26 + (ch - '2');
	return -1;
}
static int spec_b32_is_symbol(int ch) { return spec_b32_value(ch) >= 0; }

/* the (upper-case) symbol of a 5-bit value */
static char spec_b32_symbol(unsigned v) { return (char)(v < 26 ? 'A' + v : '2' + (v - 26)); }

/* bit k (stream order) of a byte string */
static unsigned spec_b32_bit(const unsigned char *d, size_t k) { return (d[k / 8] >> (7 - k % 8)) & 1u; }

/* bit j (0 = first = most significant) of a 5-bit value */
static unsigned spec_b32_symbit(unsigned v, unsigned j) { return (v >> (4 - j)) & 1u; }

/* the 16-bit window (byte idx in the high half) that holds a 5-bit value put at in-byte offset k (0..7) */
static unsigned spec_b32_window(unsigned v, unsigned k) { return ((v & 31u) << 11) >> k; }

/* 5 bits read at bit offset off of data[0..len); bits past the end read as 0. requires off/8 < len */
static unsigned spec_b32_get5(const unsigned char *d, size_t len, size_t off) {
	size_t idx = off / 8; unsigned k = (unsigned)(off % 8);
	unsigned w = ((unsigned)d[idx] << 8) | (idx + 1 < len ? (unsigned)d[idx + 1] : 0u);
	return (w >> (11 - k)) & 31u;
}

/* --- sizes of the encoding of n > 0 bytes with group length g --- */
static size_t spec_b32_nsym(size_t n) { return (n * 8 + 4) / 5; }                 /* data symbols */
static size_t spec_b32_padded(size_t n) { return ((n * 8 + 4) / 5 + 7) / 8 * 8; } /* symbols + '=' (no nested calls: dfcc) */
static size_t spec_b32_dashes_before(size_t k, size_t g) { return g > 0 ? k / g : 0; } /* dashes left of sequence position k */
static size_t spec_b32_pos(size_t k, size_t g) { return k + (g > 0 ? k / g : 0); } /* output index of sequence position k */
static size_t spec_b32_strlen(size_t n, size_t g) { size_t p = ((n * 8 + 4) / 5 + 7) / 8 * 8; return p + (g > 0 ? (p - 1) / g : 0); }
/* character at position k of the dash-less padded sequence */
static char spec_b32_seq(const unsigned char *d, size_t n, size_t k) {
	return k < (n * 8 + 4) / 5 ? spec_b32_symbol(spec_b32_get5(d, n, 5 * k)) : '=';
}

/* --- reference decoder as a one-character-at-a-time machine (ghost monitor / replay) ---
 * Characters outside the alphabet other than '-' and '=': the property only demands that they contribute no
 * data bits.  The machine records two flags: `must_reject` for a character that is neither symbol, '-', '=' nor
 * a decimal digit (the decoder has to refuse the string), `may_reject` additionally for the digits 0 1 8 9
 * (refusing or ignoring them are both acceptable).  A refusal is legitimate only if may_reject is set. */
typedef struct {
	size_t bits;          /* data bits accepted so far (5 per alphabet symbol) */
	int ended;            /* '=' seen */
	int must_reject;
	int may_reject;
	unsigned wval;        /* value of the witness bit (position wbit, chosen up front and passed to every step) once the
	                         symbol covering it has arrived */
} spec_b32_dec;

static void spec_b32_dec_init(spec_b32_dec *s) { s->bits = 0; s->ended = 0; s->must_reject = 0; s->may_reject = 0; s->wval = 0; }

static void spec_b32_dec_step(spec_b32_dec *s, int ch, size_t wbit) {
	int v;
	if (s->ended || s->must_reject) return;
	if (ch == '=') { s->ended = 1; return; }
	if (ch == '-') return;
	v = spec_b32_value(ch);
	if (v < 0) {
		s->may_reject = 1;
		if (!(ch >= '0' && ch <= '9')) s->must_reject = 1;
		return;
	}
	if (wbit >= s->bits && wbit < s->bits + 5) s->wval = spec_b32_symbit((unsigned)v, (unsigned)(wbit - s->bits));
	s->bits += 5;
}

/* ------------------------------------------------------------------------------------------------------
 * Whole-string references with loops (plain-mode harnesses, native replay). */

/* returns 0 = decoded (*out_len bytes written to out, capacity cap >= 5*strlen/8+1), 1 = must be rejected;
 * *may_reject tells whether a refusal would be legitimate. Digits 0 1 8 9 are ignored. */
static int spec_b32_decode_ref(const char *str, size_t len, unsigned char *out, size_t cap, size_t *out_len, int *may_reject) {
	size_t i, j, bits = 0; int v;
	*may_reject = 0;
	for (i = 0; i < cap; i++) out[i] = 0;
	for (i = 0; i < len; i++) {
		int ch = str[i];
		if (ch == '=') break;
		if (ch == '-') continue;
		v = spec_b32_value(ch);
		if (v < 0) { *may_reject = 1; if (!(ch >= '0' && ch <= '9')) return 1; continue; }
		for (j = 0; j < 5; j++) {
			if ((bits + j) / 8 < cap) out[(bits + j) / 8] |= (unsigned char)(spec_b32_symbit((unsigned)v, (unsigned)j) << (7 - (bits + j) % 8));
		}
		bits += 5;
	}
	*out_len = bits / 8;
	return 0;
}

/* writes the reference encoding (with terminating NUL) to out; capacity must be spec_b32_strlen(n,g)+1 */
static void spec_b32_encode_ref(const unsigned char *d, size_t n, size_t g, char *out) {
	size_t k, p = spec_b32_padded(n), o = 0;
	for (k = 0; k < p; k++) {
		if (g > 0 && k > 0 && k % g == 0) out[o++] = '-';
		out[o++] = spec_b32_seq(d, n, k);
	}
	out[o] = 0;
}
#endif
