/* Representation invariant of the asynchronous client (KSI_AsyncClient, net_async.c), written from the text of
 * property C13: "...each request the asynchronous service accepted is handed back exactly once... never lost,
 * duplicated or completed with another request's or a stale reply, a submission is refused with 'cache full'
 * exactly when the number of outstanding requests equals the configured cache size, and the reported pending
 * count always equals the number of accepted but not yet returned requests."
 *
 * Cache geometry: options[KSI_ASYNC_OPT_REQUEST_CACHE_SIZE] = N = user cache size + 1, reqCache has N entries,
 * slot 0 is reserved (never used), slots 1..N-1 hold accepted requests.  The counting functions are unrolled for
 * N <= ASYNC_INV_MAXN (loop-free, usable from contracts); jobs therefore state N <= 5, i.e. user cache size 1..4.
 * Must be included after impl/net_async_impl.h. */
#ifndef SPEC_ASYNC_INV_H
#define SPEC_ASYNC_INV_H

#define ASYNC_INV_MAXN 5
#define ASYNC_INV_ID_MASK 0x00000000ffffffffULL

/* the handle is accepted and not finished (it counts in c->pending) */
static int ainv_state_pending(int s) {
	return s == KSI_ASYNC_STATE_WAITING_FOR_DISPATCH || s == KSI_ASYNC_STATE_WAITING_FOR_RESPONSE || s == KSI_ASYNC_STATE_ERROR;
}
/* the handle has a response and waits to be returned (it counts in c->received) */
static int ainv_state_received(int s) {
	return s == KSI_ASYNC_STATE_RESPONSE_RECEIVED || s == KSI_ASYNC_STATE_PUSH_CONFIG_RECEIVED;
}
static size_t ainv_N(const KSI_AsyncClient *c) { return c->options[KSI_ASYNC_OPT_REQUEST_CACHE_SIZE]; }

static int ainv_slot_used(const KSI_AsyncClient *c, size_t i) { return i < ainv_N(c) && c->reqCache[i] != NULL; }
static size_t ainv_slot_pending(const KSI_AsyncClient *c, size_t i) { return (ainv_slot_used(c, i) && ainv_state_pending(c->reqCache[i]->state)) ? 1 : 0; }
static size_t ainv_slot_received(const KSI_AsyncClient *c, size_t i) { return (ainv_slot_used(c, i) && ainv_state_received(c->reqCache[i]->state)) ? 1 : 0; }
/* slot i is empty, or holds a handle whose id names this slot and whose state is one of the five "in the cache" states */
static int ainv_slot_ok(const KSI_AsyncClient *c, size_t i) {
	return !ainv_slot_used(c, i) || ((c->reqCache[i]->id & ASYNC_INV_ID_MASK) == i &&
			(ainv_state_pending(c->reqCache[i]->state) || ainv_state_received(c->reqCache[i]->state)));
}

/* number of occupied slots / of slots in a pending state / in a received state */
static size_t ainv_occupied(const KSI_AsyncClient *c) {
	return (size_t)ainv_slot_used(c, 1) + (size_t)ainv_slot_used(c, 2) + (size_t)ainv_slot_used(c, 3) + (size_t)ainv_slot_used(c, 4);
}
static size_t ainv_conf_pending(const KSI_AsyncClient *c) { return (c->serverConf != NULL && ainv_state_pending(c->serverConf->state)) ? 1 : 0; }
static size_t ainv_conf_received(const KSI_AsyncClient *c) { return (c->serverConf != NULL && ainv_state_received(c->serverConf->state)) ? 1 : 0; }
static size_t ainv_count_pending(const KSI_AsyncClient *c) {
	return ainv_slot_pending(c, 1) + ainv_slot_pending(c, 2) + ainv_slot_pending(c, 3) + ainv_slot_pending(c, 4) + ainv_conf_pending(c);
}
static size_t ainv_count_received(const KSI_AsyncClient *c) {
	return ainv_slot_received(c, 1) + ainv_slot_received(c, 2) + ainv_slot_received(c, 3) + ainv_slot_received(c, 4) + ainv_conf_received(c);
}

/* geometry: N in 2..5, cursors inside the cache (requestCount is 0 until the first allocation) */
static int ainv_geometry(const KSI_AsyncClient *c) {
	return c->reqCache != NULL && ainv_N(c) >= 2 && ainv_N(c) <= ASYNC_INV_MAXN &&
			c->tail >= 1 && c->tail < ainv_N(c) && c->requestCount < ainv_N(c) && c->reqCache[0] == NULL;
}
/* the separately cached configuration handle: in one of the cache states, never confused with a slot (id 0) */
static int ainv_conf_ok(const KSI_AsyncClient *c) {
	return c->serverConf == NULL || ((c->serverConf->id & ASYNC_INV_ID_MASK) == 0 &&
			(ainv_state_pending(c->serverConf->state) || ainv_state_received(c->serverConf->state)));
}
/* Inv(c) */
static int ainv_inv(const KSI_AsyncClient *c) {
	return ainv_geometry(c) && ainv_slot_ok(c, 1) && ainv_slot_ok(c, 2) && ainv_slot_ok(c, 3) && ainv_slot_ok(c, 4) && ainv_conf_ok(c) &&
			c->pending == ainv_count_pending(c) && c->received == ainv_count_received(c);
}

/* scan order of asyncClient_calculateRequestId: successor of cursor position p */
static size_t ainv_next(const KSI_AsyncClient *c, size_t p) { return (p + 1 >= ainv_N(c)) ? 1 : p + 1; }
/* first empty slot met by the scan that starts after c->requestCount (0 = every slot is occupied) */
static size_t ainv_first_empty(const KSI_AsyncClient *c) {
	size_t p1 = ainv_next(c, c->requestCount), p2 = ainv_next(c, p1), p3 = ainv_next(c, p2), p4 = ainv_next(c, p3);
	if (!ainv_slot_used(c, p1)) return p1;
	if (!ainv_slot_used(c, p2)) return p2;
	if (!ainv_slot_used(c, p3)) return p3;
	if (!ainv_slot_used(c, p4)) return p4;
	return 0;
}
#endif
