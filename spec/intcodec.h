/* KSI integer payload (property C10: "integers minimally encoded within 64 bits").
 * Written from the KSI format: an unsigned integer is coded big-endian in the fewest octets; the value 0 has an
 * EMPTY payload (so a single 0x00 octet is a leading zero and not minimal); at most 8 octets.
 * Loop-free: usable from contracts and natively. */
#ifndef SPEC_INTCODEC_H
#define SPEC_INTCODEC_H
#include <stddef.h>

/* well formed  <=>  len <= 8 and no leading zero octet */
static int spec_int_wellformed(const unsigned char *b, size_t len) {
	return len <= 8 && (len == 0 || b[0] != 0);
}

#define SPEC_INT_TERM(b, len, k) ((len) > (k) ? ((unsigned long long)(b)[k]) << (8 * ((len) - 1 - (k))) : 0ULL)
/* big-endian value of b[0..len), len <= 8 */
static unsigned long long spec_int_value(const unsigned char *b, size_t len) {
	return SPEC_INT_TERM(b, len, 0) | SPEC_INT_TERM(b, len, 1) | SPEC_INT_TERM(b, len, 2) | SPEC_INT_TERM(b, len, 3) |
	       SPEC_INT_TERM(b, len, 4) | SPEC_INT_TERM(b, len, 5) | SPEC_INT_TERM(b, len, 6) | SPEC_INT_TERM(b, len, 7);
}

/* number of octets of the minimal encoding of v (0 for v == 0) */
static size_t spec_int_minlen(unsigned long long v) {
	return v == 0 ? 0 : (size_t)(8 - __builtin_clzll(v) / 8);
}
#endif
